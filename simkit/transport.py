"""The storage seam: a transport decorator that routes every operation through the
simulator (`sim+<inner url>`).  The inner transport is real code (dromedary's memory
or local transport); only the decision *whether/when/how much* of an operation is
applied belongs to the simulator."""

import io

from dromedary import register_transport, unregister_transport
from dromedary.decorator import TransportDecorator

from .sim import SimCrash
from .sim import cur_sim as _S

_installed = False


def install(sim=None):
    """Register the sim+ URL prefix (idempotent).  The simulation consulted by a seam
    call is the one that owns the calling thread."""
    global _installed
    if not _installed:
        register_transport("sim+", SimTransport)
        _installed = True


class SimStream:
    """Write stream whose every write is an interceptable, tearable operation."""

    def __init__(self, transport, relpath, inner):
        self.transport = transport
        self.relpath = relpath
        self._inner = inner
        self._path = transport._p(relpath)

    def __enter__(self):
        return self

    def __exit__(self, *a):
        self.close()
        return False

    def write(self, data):
        d = _S().before_op("stream_write", self._path, True, vol=len(data))
        if d and d[0] in ("torn", "torn_crash"):
            data = bytes(data)[: int(len(data) * d[1])]
        r = self._inner.write(data)
        _S().after_op("stream_write", self._path)
        return r

    def _dead(self):
        if _S().current().dead:
            # the process is gone: the OS closes the descriptor, written data stays
            try:
                self._inner.close()
            except Exception:
                pass
            raise SimCrash()

    def flush(self):
        self._dead()
        return self._inner.flush()

    def fdatasync(self):
        self._dead()
        try:
            return self._inner.fdatasync()
        except Exception:
            return None

    def close(self, want_fdatasync=False):
        self._dead()
        _S().before_op("stream_close", self._path, False)
        self._inner.close()
        _S().after_op("stream_close", self._path)


class SimTransport(TransportDecorator):
    @classmethod
    def _get_url_prefix(cls):
        return "sim+"

    # normalised path for logs / monitors: path below the store root
    def _p(self, relpath):
        b = self._decorated.abspath(relpath)
        i = b.find(":///")
        return b[i + 3 :] if i >= 0 else b

    def _do(self, op, relpath, mutating, fn, extra="", vol=None):
        p = self._p(relpath)
        d = _S().before_op(op, p, mutating, extra, vol=vol)
        try:
            r = fn(d)
        except BaseException:
            # the op ran and failed on its own; a "crash after this op" still happens now
            if _S().current().pending_crash_after:
                _S().after_op(op, p)
            raise
        _S().after_op(op, p)
        return r

    # -- reads -----------------------------------------------------------------------
    def get(self, relpath):
        return self._do("get", relpath, False, lambda d: self._decorated.get(relpath))

    def get_bytes(self, relpath):
        return self._do("get", relpath, False, lambda d: self._decorated.get_bytes(relpath))

    def has(self, relpath):
        return self._do("has", relpath, False, lambda d: self._decorated.has(relpath))

    def stat(self, relpath):
        return self._do("stat", relpath, False, lambda d: self._decorated.stat(relpath))

    def list_dir(self, relpath):
        def f(d):
            names = sorted(self._decorated.list_dir(relpath))
            _S().io_rng.shuffle(names)
            return names

        return self._do("list_dir", relpath, False, f)

    def iter_files_recursive(self):
        return iter(self._do("iter_files_recursive", ".", False, lambda d: sorted(self._decorated.iter_files_recursive())))

    def _readv(self, relpath, offsets):
        offsets = list(offsets)
        return iter(
            self._do(
                "readv", relpath, False, lambda d: list(self._decorated._readv(relpath, offsets)), vol=len(offsets)
            )
        )

    def readv(self, relpath, offsets, adjust_for_latency=False, upper_limit=None):
        offsets = list(offsets)
        return iter(
            self._do(
                "readv",
                relpath,
                False,
                lambda d: list(self._decorated.readv(relpath, offsets, adjust_for_latency, upper_limit)),
                vol=len(offsets),
            )
        )

    # -- atomic writes -------------------------------------------------------------------
    def put_bytes(self, relpath, raw_bytes, mode=None):
        return self._do(
            "put", relpath, True, lambda d: self._decorated.put_bytes(relpath, raw_bytes, mode), vol=len(raw_bytes)
        )

    def put_file(self, relpath, f, mode=None):
        data = f.read()
        return self._do(
            "put", relpath, True, lambda d: self._decorated.put_bytes(relpath, data, mode), vol=len(data)
        )

    def mkdir(self, relpath, mode=None):
        return self._do("mkdir", relpath, True, lambda d: self._decorated.mkdir(relpath, mode))

    def rename(self, rel_from, rel_to):
        return self._do(
            "rename", rel_from, True, lambda d: self._decorated.rename(rel_from, rel_to), extra=self._p(rel_to)
        )

    def move(self, rel_from, rel_to):
        return self._do("move", rel_from, True, lambda d: self._decorated.move(rel_from, rel_to), extra=self._p(rel_to))

    def delete(self, relpath):
        return self._do("delete", relpath, True, lambda d: self._decorated.delete(relpath))

    def rmdir(self, relpath):
        return self._do("rmdir", relpath, True, lambda d: self._decorated.rmdir(relpath))

    def delete_tree(self, relpath):
        # decomposed by the base class into list_dir/delete/rmdir on *this* transport
        from dromedary import Transport

        return Transport.delete_tree(self, relpath)

    def copy(self, rel_from, rel_to):
        return self._do("copy", rel_from, True, lambda d: self._decorated.copy(rel_from, rel_to), extra=self._p(rel_to))

    # -- tearable writes -----------------------------------------------------------------
    @staticmethod
    def _cut(d, data):
        if d and d[0] in ("torn", "torn_crash"):
            return bytes(data)[: int(len(data) * d[1])]
        return data

    def put_bytes_non_atomic(self, relpath, raw_bytes, mode=None, create_parent_dir=False, dir_mode=None):
        return self._do(
            "put_na",
            relpath,
            True,
            lambda d: self._decorated.put_bytes_non_atomic(
                relpath, self._cut(d, raw_bytes), mode=mode, create_parent_dir=create_parent_dir, dir_mode=dir_mode
            ),
            vol=len(raw_bytes),
        )

    def put_file_non_atomic(self, relpath, f, mode=None, create_parent_dir=False, dir_mode=None):
        return self.put_bytes_non_atomic(relpath, f.read(), mode, create_parent_dir, dir_mode)

    def append_bytes(self, relpath, data, mode=None):
        return self._do(
            "append", relpath, True, lambda d: self._decorated.append_bytes(relpath, self._cut(d, data), mode=mode), vol=len(data)
        )

    def append_file(self, relpath, f, mode=None):
        return self.append_bytes(relpath, f.read(), mode)

    def open_write_stream(self, relpath, mode=None):
        inner = self._do("open_write_stream", relpath, True, lambda d: self._decorated.open_write_stream(relpath, mode=mode))
        return SimStream(self, relpath, inner)

    # -- misc -----------------------------------------------------------------------------
    def local_abspath(self, relpath):
        return self._decorated.local_abspath(relpath)

    def lock_read(self, relpath):
        return self._decorated.lock_read(relpath)

    def lock_write(self, relpath):
        return self._decorated.lock_write(relpath)

    def symlink(self, source, link_name):
        return self._do("symlink", link_name, True, lambda d: self._decorated.symlink(source, link_name))

    def readlink(self, relpath):
        return self._do("readlink", relpath, False, lambda d: self._decorated.readlink(relpath))

    def hardlink(self, source, link_name):
        return self._do("hardlink", link_name, True, lambda d: self._decorated.hardlink(source, link_name))


# -- helpers for oracles -------------------------------------------------------------------


def raw(transport):
    """The undecorated transport (oracle reads must not be scheduled or faulted)."""
    while isinstance(transport, TransportDecorator):
        transport = transport._decorated
    return transport


def snapshot(transport, skip=()):
    """{path: bytes | None for directories} of everything below a raw transport."""
    t = raw(transport)
    out = {}

    def walk(rel):
        for name in sorted(t.list_dir(rel or ".")):
            p = f"{rel}/{name}" if rel else name
            if any(p == s or p.startswith(s + "/") for s in skip):
                continue
            import stat as _stat

            st = t.stat(p)
            if _stat.S_ISDIR(st.st_mode):
                out[p] = None
                walk(p)
            else:
                out[p] = t.get_bytes(p)

    walk("")
    return out
