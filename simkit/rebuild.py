"""Rebuild Rust extension modules when /repo's Rust sources differ from the sources
the installed .so files were built from (checks must exercise the working tree).

`rust_baseline.json` (committed) holds the source hash per extension at the pinned
commit, which is what the pre-installed .so files correspond to.  `build/rust-*.built`
remembers the hash of the sources of the last rebuild done here."""

import fcntl
import glob
import hashlib
import json
import os
import shutil
import subprocess
import sys

VERIF = os.path.dirname(os.path.dirname(os.path.abspath(__file__)))

# ext module -> (cargo package, built lib, source dirs/files relative to repo)
EXTS = {
    "_cmd_rs": ("cmd-py", "libcmd_py.so", ["src", "crates/cmd-py", "crates/osutils", "crates/bazaar", "crates/git", "Cargo.toml"]),
    "_osutils_rs": ("osutils-py", "libosutils_py.so", ["crates/osutils", "crates/osutils-py"]),
    "_git_rs": ("git-py", "libgit_py.so", ["crates/git", "crates/git-py"]),
    "_patch_rs": ("patch-py", "libpatch_py.so", ["crates/patch", "crates/patch-py"]),
    "_annotator_rs": ("annotate-py", "libannotate_py.so", ["crates/annotate", "crates/annotate-py"]),
    "zlib_util": ("zlib-util-py", "libzlib_util_py.so", ["crates/zlib-util", "crates/zlib-util-py"]),
}


def source_hash(repo, rels):
    h = hashlib.sha1()
    for rel in rels:
        p = os.path.join(repo, rel)
        files = [p] if os.path.isfile(p) else sorted(glob.glob(os.path.join(p, "**", "*.rs"), recursive=True) + glob.glob(os.path.join(p, "**", "Cargo.toml"), recursive=True))
        for f in files:
            h.update(os.path.relpath(f, repo).encode())
            try:
                with open(f, "rb") as fh:
                    h.update(hashlib.sha1(fh.read()).digest())
            except OSError:
                pass
    return h.hexdigest()


def hashes(repo):
    return {ext: source_hash(repo, rels) for ext, (_, _, rels) in EXTS.items()}


def ensure_rust(repo):
    if not os.path.exists(os.path.join(repo, "Cargo.toml")):
        return []  # python-only scratch copy (tools/mkscratch.sh): extensions are symlinks
    try:
        with open(os.path.join(VERIF, "rust_baseline.json")) as f:
            baseline = json.load(f)
    except OSError:
        baseline = {}
    rebuilt = []
    for ext, (pkg, lib, rels) in EXTS.items():
        cur = source_hash(repo, rels)
        marker = os.path.join(VERIF, "build", f"rust-{ext}.built")
        try:
            with open(marker) as f:
                built = f.read().strip()
        except OSError:
            built = baseline.get(ext)
        sos = glob.glob(os.path.join(repo, "breezy", ext + ".*.so"))
        if sos and cur == built:
            continue
        os.makedirs(os.path.join(VERIF, "build"), exist_ok=True)
        with open(os.path.join(VERIF, "build", ".rust.lock"), "w") as lock:
            fcntl.flock(lock, fcntl.LOCK_EX)
            try:
                with open(marker) as f:
                    if f.read().strip() == cur and sos:
                        continue
            except OSError:
                pass
            env = dict(os.environ, CARGO_NET_OFFLINE="true")
            env.pop("LD_PRELOAD", None)
            r = subprocess.run(["cargo", "build", "--offline", "-p", pkg], cwd=repo, env=env, capture_output=True, text=True)
            if r.returncode != 0:
                print(f"HARNESS-WARN: cargo build -p {pkg} failed; using the installed {ext}\n{r.stderr[-800:]}", file=sys.stderr)
                continue
            dest = sos[0] if sos else os.path.join(repo, "breezy", f"{ext}.cpython-312-x86_64-linux-gnu.so")
            shutil.copyfile(os.path.join(repo, "target", "debug", lib), dest + ".new")
            os.chmod(dest + ".new", 0o755)
            os.replace(dest + ".new", dest)
            with open(marker, "w") as f:
                f.write(cur)
            rebuilt.append(ext)
    return rebuilt


if __name__ == "__main__":
    repo = sys.argv[2] if len(sys.argv) > 2 else "/repo"
    if sys.argv[1] == "baseline":
        json.dump(hashes(repo), open(os.path.join(VERIF, "rust_baseline.json"), "w"), indent=1)
    else:
        print(ensure_rust(repo))
