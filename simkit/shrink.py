"""Minimisation of a failing run record.  Every attempt is a replay in a fresh fork;
it is accepted when the same signature fails again."""

import copy
import time


def _fails(mod, rec, plan, tier, run_child, sig):
    res = run_child(mod, rec["run_seed"], plan, tier, timeout=120.0)
    return res.get("verdict") == "violation" and res.get("signature") == sig, res


def generic_candidates(plan):
    """Smaller variants of a plan: drop chunks of list-valued 'ops' (ddmin style),
    drop faults, drop explicit schedule suffixes."""
    for key in ("ops", "actors"):
        ops = plan.get(key)
        if isinstance(ops, list) and len(ops) > 1:
            n = len(ops)
            chunk = max(1, n // 2)
            while chunk >= 1:
                for start in range(0, n, chunk):
                    p = copy.deepcopy(plan)
                    p[key] = ops[:start] + ops[start + chunk :]
                    if p[key]:
                        yield p
                chunk //= 2
        if isinstance(ops, dict):
            for name, lst in ops.items():
                if isinstance(lst, list) and len(lst) > 1:
                    for i in range(len(lst)):
                        p = copy.deepcopy(plan)
                        p[key][name] = lst[:i] + lst[i + 1 :]
                        yield p
    faults = plan.get("faults")
    if isinstance(faults, list) and faults:
        for i in range(len(faults)):
            p = copy.deepcopy(plan)
            p["faults"] = faults[:i] + faults[i + 1 :]
            yield p
    sched = plan.get("sched")
    if isinstance(sched, list) and len(sched) > 1:
        for cut in (len(sched) // 2, len(sched) * 3 // 4):
            p = copy.deepcopy(plan)
            p["sched"] = sched[:cut]
            yield p


def minimise(mod, rec, tier, run_child, budget_s=90.0):
    sig = rec["verdict"]["signature"]
    plan = copy.deepcopy(rec["plan"])
    t_end = time.time() + budget_s
    attempts = 0
    # pin the schedule actually taken, so removing ops does not reshuffle it
    ok, res = _fails(mod, rec, plan, tier, run_child, sig)
    attempts += 1
    if not ok:
        rec["shrink"] = {"attempts": attempts, "note": "original run did not reproduce on re-execution"}
        return rec
    if res.get("sched") and not plan.get("sched") and not plan.get("no_pin"):
        p2 = copy.deepcopy(plan)
        p2["sched"] = res["sched"]
        ok2, res2 = _fails(mod, rec, p2, tier, run_child, sig)
        attempts += 1
        if ok2:
            plan, res = p2, res2
    cand_fn = getattr(mod, "shrink_candidates", None) or generic_candidates
    improved = True
    while improved and time.time() < t_end:
        improved = False
        for cand in cand_fn(plan):
            if time.time() >= t_end:
                break
            attempts += 1
            ok, r = _fails(mod, rec, cand, tier, run_child, sig)
            if ok:
                plan, res = cand, r
                improved = True
                break
    rec = dict(rec)
    rec["original_plan_size"] = len(repr(rec["plan"]))
    rec["plan"] = plan
    rec["verdict"] = {k: res.get(k) for k in ("oracle", "signature", "detail", "digest", "vdigest")}
    rec["trace_tail"] = res.get("trace_tail")
    rec["shrink"] = {"attempts": attempts, "final_plan_size": len(repr(plan))}
    return rec
