"""Per-run enumeration of fault points: each fault point is executed in a forked copy of
the run child, so every execution starts from the byte-identical pre-state (memory store
contents are copy-on-write) and a single point can be replayed alone."""

import json
import os
import select
import signal
import time
import traceback


def run_forked(fn, timeout=120.0):
    """Run fn() in a forked child; returns its JSON-able return value, or
    {"_error": text} / {"_timeout": True}."""
    r, w = os.pipe()
    pid = os.fork()
    if pid == 0:
        code = 0
        try:
            os.close(r)
            try:
                res = fn()
            except BaseException:  # noqa: B036
                res = {"_error": traceback.format_exc()[-4000:]}
            with os.fdopen(w, "wb") as f:
                f.write(json.dumps(res, default=repr).encode())
        except BaseException:  # noqa: B036
            code = 3
        finally:
            os._exit(code)
    os.close(w)
    chunks = []
    deadline = time.time() + timeout
    timed_out = False
    while True:
        left = deadline - time.time()
        if left <= 0:
            timed_out = True
            break
        ready, _, _ = select.select([r], [], [], min(left, 1.0))
        if ready:
            b = os.read(r, 1 << 16)
            if not b:
                break
            chunks.append(b)
    os.close(r)
    if timed_out:
        try:
            os.kill(pid, signal.SIGKILL)
        except ProcessLookupError:
            pass
    try:
        os.waitpid(pid, 0)
    except ChildProcessError:
        pass
    if timed_out:
        return {"_timeout": True}
    try:
        return json.loads(b"".join(chunks))
    except ValueError:
        return {"_error": "forked execution died without a result"}


def sub_result(sim, extra=None):
    """Summary a forked sub-execution returns to the run child."""
    out = {
        "verdict": "violation" if sim.violation is not None else "ok",
        "digest": sim.digest()[:20],
        "probes": dict(sim.probes),
        "faults_fired": dict(sim.faults_fired),
        "steps": sim.steps,
        "nontrivial": bool(sim.nontrivial),
    }
    if sim.violation is not None:
        v = sim.violation
        out.update(oracle=v.oracle, signature=v.signature, detail=str(v.detail)[:3000], trace_tail=[list(e) for e in sim.log[-40:]])
    if extra:
        out.update(extra)
    return out


def merge_sub(sim, res, label=""):
    """Fold a sub-execution's result into the run's Sim.  Raises the violation of the
    sub-execution in the run (first one wins)."""
    if "_error" in res:
        raise RuntimeError(f"sub-execution {label} failed in the harness:\n{res['_error']}")
    if "_timeout" in res:
        sim.probe("sub_execution_timeout")
        sim.truncated = True
        return
    sim.notes["evaluations"] = sim.notes.get("evaluations", 0) + 1
    sim.probes.update(res.get("probes", {}))
    sim.faults_fired.update(res.get("faults_fired", {}))
    sim.steps += res.get("steps", 0)
    if res.get("nontrivial"):
        sim.notes.setdefault("sub_digests", []).append(res["digest"])
        sim.nontrivial = True
    sim.event("sub", label, res["verdict"], res["digest"])
    if res["verdict"] == "violation":
        sim.notes["sub_trace"] = res.get("trace_tail")
        sim.notes["violation_digest"] = res["digest"]
        sim.fail(res["oracle"], res["signature"], f"[{label}] {res['detail']}")
