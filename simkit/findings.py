"""Known-findings file: committed, never written at run time."""

import json
import os

PATH = os.environ.get("VERIF_KNOWN_FINDINGS") or os.path.join(os.path.dirname(os.path.dirname(os.path.abspath(__file__))), "known_findings.json")


def load(prop):
    try:
        with open(PATH) as f:
            entries = json.load(f)
    except OSError:
        return []
    return [e for e in entries if e.get("property") == prop]


def match(entries, signature):
    """Only *open* entries suppress; a `fixed` entry suppresses nothing."""
    for e in entries:
        if e.get("status") == "open" and e.get("signature") == signature:
            return e
    return None
