"""Batch driver: warmed parent -> N workers -> one forked child per simulated run.

Exit status of a check: 0 = property held on everything explored, 1 = violation
(line `VIOLATION property=<id> replay=<path>`), 2 = harness problem (never a pass).
"""

import ctypes
import importlib
import json
import os
import random
import select
import shutil
import signal
import sys
import time
import traceback
from collections import Counter

from . import evidence, findings, shrink
from .sim import HarnessTruncated, Sim, SimCrash, Violation, derive_seed, substream

VERIF = os.path.dirname(os.path.dirname(os.path.abspath(__file__)))
NWORKERS = int(os.environ.get("VERIF_WORKERS", "0")) or min(16, os.cpu_count() or 1)


def scratch_base():
    return os.environ.get("VERIF_SCRATCH_BASE") or f"/dev/shm/verif-{os.getpid()}"


def _reseed(run_seed):
    try:
        lib = ctypes.CDLL(None)
        lib.detrand_seed.argtypes = [ctypes.c_uint64]
        lib.detrand_seed(run_seed & 0xFFFFFFFFFFFFFFFF)
    except (AttributeError, OSError):
        pass
    random.seed(run_seed)


def shim_active():
    try:
        lib = ctypes.CDLL(None)
        lib.detrand_draws.restype = ctypes.c_uint64
        lib.detrand_draws()
        return True
    except (AttributeError, OSError):
        return False


def run_body(mod, run_seed, plan, tier, want_plan):
    """Executed inside the per-run child."""
    base = os.environ["VERIF_SCRATCH_BASE"]
    _run_counter[0] += 1
    scratch = os.path.join(base, f"r{run_seed}-{os.getpid()}-{_run_counter[0]}")
    os.makedirs(os.path.join(scratch, "home"), exist_ok=True)
    os.environ["BRZ_HOME"] = os.path.join(scratch, "home")
    os.environ["HOME"] = os.path.join(scratch, "home")
    os.environ["VERIF_SCRATCH"] = scratch
    _reseed(run_seed)
    out = {"run_seed": run_seed}
    sim = None
    t0 = time.time()
    try:
        if plan is None:
            plan = mod.generate(substream(run_seed, "workload"), tier)
        sim = Sim(run_seed, plan, step_cap=getattr(mod, "STEP_CAP", 20000))
        sim.scratch = scratch
        sim.tier = tier
        try:
            mod.execute(sim, plan)
            verdict = "ok"
        except Violation:
            verdict = "violation"
        except HarnessTruncated as e:
            verdict = "truncated"
            out["detail"] = str(e)
        except SimCrash:
            verdict = "error"
            out["detail"] = "SimCrash escaped the scenario\n" + traceback.format_exc()
        if sim.violation is not None:
            verdict = "violation"
        elif sim.truncated and verdict == "ok":
            verdict = "truncated"
        out["verdict"] = verdict
        if verdict == "violation":
            v = sim.violation
            out.update(oracle=v.oracle, signature=v.signature, detail=str(v.detail)[:4000])
            out["trace_tail"] = sim.notes.get("sub_trace") or [list(e) for e in sim.log[-60:]]
            out["vdigest"] = sim.notes.get("violation_digest") or sim.digest()[:20]
    except BaseException:  # noqa: B036 - harness or unexpected implementation error
        out["verdict"] = "error"
        out["detail"] = traceback.format_exc()[-6000:]
    if sim is not None:
        out.update(
            digest=sim.digest()[:20],
            nontrivial=bool(sim.nontrivial),
            probes=dict(sim.probes),
            faults_fired=dict(sim.faults_fired),
            steps=sim.steps,
            switches=sim.switches,
            sim_seconds=round(sim.clock - 1_000_000.0, 3),
            states=sorted(sim.states)[:2000],
            evaluations=int(sim.notes.get("evaluations", 1)),
            sub_digests=sim.notes.get("sub_digests", []),
            sample=sim.notes.get("sample"),
            known=sim.notes.get("known", []),
        )
        if want_plan or out["verdict"] in ("violation", "error"):
            out["plan"] = plan
            out["sched"] = sim.sched_out[:5000]
    out["wall"] = round(time.time() - t0, 4)
    shutil.rmtree(scratch, ignore_errors=True)
    return out


_run_counter = [0]


def run_inproc(mod, run_seed, plan=None, tier="quick", timeout=60.0, want_plan=False):
    """Run in this process, in a fresh thread (fresh Rust thread-local hash keys drawn
    from the re-seeded shim).  Used by checks whose runs are too cheap to pay for a
    fork; such checks must rebuild all their state per run."""
    import threading

    box = {}

    def body():
        try:
            box["res"] = run_body(mod, run_seed, plan, tier, want_plan)
        except BaseException:  # noqa: B036
            box["res"] = {"run_seed": run_seed, "verdict": "error", "detail": traceback.format_exc()[-4000:], "plan": plan}

    th = threading.Thread(target=body, daemon=True)
    th.start()
    th.join(timeout)
    if th.is_alive():
        return {"run_seed": run_seed, "verdict": "timeout", "detail": f"run exceeded {timeout}s (in-process)", "plan": plan, "poisoned": True}
    return box["res"]


def run_one(mod, run_seed, plan=None, tier="quick", timeout=60.0, want_plan=False):
    if getattr(mod, "ISOLATION", "fork") == "thread":
        return run_inproc(mod, run_seed, plan, tier, timeout, want_plan)
    return run_child(mod, run_seed, plan, tier, timeout, want_plan)


def run_child(mod, run_seed, plan=None, tier="quick", timeout=60.0, want_plan=False):
    """Fork one child for one run; returns its result dict."""
    r, w = os.pipe()
    sys.stdout.flush()
    sys.stderr.flush()
    pid = os.fork()
    if pid == 0:
        code = 0
        try:
            os.close(r)
            os.setpgid(0, 0)
            res = run_body(mod, run_seed, plan, tier, want_plan)
            data = json.dumps(res, default=_jsonable).encode()
            with os.fdopen(w, "wb") as f:
                f.write(data)
        except BaseException:  # noqa: B036
            code = 3
            try:
                traceback.print_exc()
            except Exception:
                pass
        finally:
            os._exit(code)
    os.close(w)
    chunks = []
    deadline = time.time() + timeout
    timed_out = False
    while True:
        left = deadline - time.time()
        if left <= 0:
            timed_out = True
            break
        ready, _, _ = select.select([r], [], [], min(left, 1.0))
        if ready:
            b = os.read(r, 1 << 16)
            if not b:
                break
            chunks.append(b)
    os.close(r)
    if timed_out:
        try:
            os.killpg(pid, signal.SIGKILL)
        except ProcessLookupError:
            pass
    try:
        os.waitpid(pid, 0)
    except ChildProcessError:
        pass
    if not timed_out:
        # reap anything the child left in its group (grandchildren)
        try:
            os.killpg(pid, signal.SIGKILL)
        except (ProcessLookupError, PermissionError):
            pass
    base = os.environ.get("VERIF_SCRATCH_BASE")
    if base:
        for d in _glob_scratch(base, run_seed, pid):
            shutil.rmtree(d, ignore_errors=True)
    if timed_out:
        return {"run_seed": run_seed, "verdict": "timeout", "detail": f"run exceeded {timeout}s", "plan": plan}
    try:
        return json.loads(b"".join(chunks))
    except ValueError:
        return {"run_seed": run_seed, "verdict": "error", "detail": "child died without a result", "plan": plan}


def _glob_scratch(base, run_seed, pid):
    import glob

    return glob.glob(os.path.join(base, f"r{run_seed}-{pid}-*"))


def _jsonable(o):
    if isinstance(o, bytes):
        return o.decode("latin-1")
    if isinstance(o, (set, frozenset)):
        return sorted(o)
    return repr(o)


class Agg:
    def __init__(self):
        self.runs = 0
        self.verdicts = Counter()
        self.probes = Counter()
        self.faults = Counter()
        self.steps = 0
        self.switches = 0
        self.sim_seconds = 0.0
        self.evaluations = 0
        self.digests = {}  # index -> digest  (for determinism comparison)
        self.nontrivial = set()
        self.all_digests = set()
        self.states = set()
        self.samples = []
        self.violations = []
        self.vio_sigs = Counter()
        self.errors = []
        self.rechecks = {}
        self.known = Counter()

    def add(self, idx, res, recheck=False):
        if recheck:
            self.rechecks[idx] = res.get("digest")
            return
        self.runs += 1
        v = res.get("verdict", "error")
        self.verdicts[v] += 1
        self.probes.update(res.get("probes", {}))
        self.faults.update(res.get("faults_fired", {}))
        self.steps += res.get("steps", 0)
        self.switches += res.get("switches", 0)
        self.sim_seconds += res.get("sim_seconds", 0.0)
        self.evaluations += res.get("evaluations", 1)
        self.digests[idx] = res.get("digest")
        if res.get("digest"):
            self.all_digests.add(res["digest"])
            if res.get("nontrivial"):
                subs = res.get("sub_digests") or [res["digest"]]
                self.nontrivial.update(subs)
        self.states.update(res.get("states", []))
        for k in res.get("known", []):
            self.known[json.dumps(k)] += 1
        if res.get("sample") is not None and len(self.samples) < 3:
            self.samples.append(res["sample"])
        elif res.get("plan") is not None and v == "ok" and len(self.samples) < 3:
            self.samples.append({"run_seed": res["run_seed"], "plan": res["plan"], "digest": res.get("digest")})
        if v == "violation":
            key = json.dumps(res.get("signature"))
            self.vio_sigs[key] += 1
            if self.vio_sigs[key] <= 2 and len(self.violations) < 12:
                self.violations.append(res)
        elif v in ("error", "timeout"):
            if len(self.errors) < 5:
                self.errors.append(res)

    def dump(self):
        return {
            "runs": self.runs,
            "verdicts": dict(self.verdicts),
            "probes": dict(self.probes),
            "faults": dict(self.faults),
            "steps": self.steps,
            "switches": self.switches,
            "sim_seconds": self.sim_seconds,
            "evaluations": self.evaluations,
            "digests": {str(k): v for k, v in self.digests.items()},
            "nontrivial": sorted(self.nontrivial),
            "all_digests": sorted(self.all_digests),
            "states": sorted(self.states),
            "samples": self.samples,
            "violations": self.violations,
            "vio_sigs": dict(self.vio_sigs),
            "errors": self.errors,
            "rechecks": {str(k): v for k, v in self.rechecks.items()},
            "known": dict(self.known),
        }

    def merge(self, d):
        self.runs += d["runs"]
        self.verdicts.update(d["verdicts"])
        self.probes.update(d["probes"])
        self.faults.update(d["faults"])
        self.steps += d["steps"]
        self.switches += d["switches"]
        self.sim_seconds += d["sim_seconds"]
        self.evaluations += d["evaluations"]
        self.digests.update({int(k): v for k, v in d["digests"].items()})
        self.nontrivial.update(d["nontrivial"])
        self.all_digests.update(d["all_digests"])
        self.states.update(d["states"])
        for s in d["samples"]:
            if len(self.samples) < 3:
                self.samples.append(s)
        self.violations.extend(d["violations"])
        self.vio_sigs.update(d["vio_sigs"])
        self.errors.extend(d["errors"])
        self.rechecks.update({int(k): v for k, v in d["rechecks"].items()})
        self.known.update(d["known"])


def worker_main(mod, w, nworkers, seed, tier, cfg, deadline, outpath):
    agg = Agg()
    prop = mod.PROPERTY
    max_runs = cfg.get("max_runs", 10**9)
    timeout = cfg.get("run_timeout", 60.0)
    nself = cfg.get("selftest", 16)
    i = w
    last_flush = time.time()

    def flush():
        with open(outpath + ".tmp", "w") as f:
            json.dump(agg.dump(), f, default=_jsonable)
        os.replace(outpath + ".tmp", outpath)

    poisoned = False
    # determinism self-test first: re-run index j in a *different* worker than the one
    # that runs it in the main loop (for in-process checks also after a different
    # history of runs); the parent compares the digests afterwards
    for j in range(nself):
        if (j + 1) % nworkers == w and j < max_runs and not poisoned and time.time() < deadline:
            res = run_one(mod, derive_seed(seed, prop, j), None, tier, timeout)
            agg.add(j, res, recheck=True)
            poisoned = bool(res.get("poisoned"))
    spent = []
    while i < max_runs and not poisoned:
        now = time.time()
        est = (sum(spent) / len(spent)) if spent else 0.0
        if now + 0.6 * est > deadline:
            break
        res = run_one(mod, derive_seed(seed, prop, i), None, tier, timeout, want_plan=(i < 3))
        spent.append(time.time() - now)
        agg.add(i, res)
        poisoned = bool(res.get("poisoned"))
        i += nworkers
        if time.time() - last_flush > 5:
            flush()
            last_flush = time.time()
    flush()


def warm(mod):
    sys.setswitchinterval(1e-4)
    if hasattr(mod, "warm"):
        mod.warm()


def main(prop, tier="quick", seed=0, replay=None, budget=None, workers=None, verbose=False, run_seed=None):
    t0 = time.time()
    mod = importlib.import_module(f"checks.{prop}")
    base = scratch_base()
    os.environ["VERIF_SCRATCH_BASE"] = base
    shutil.rmtree(base, ignore_errors=True)
    os.makedirs(base, exist_ok=True)
    try:
        if not shim_active():
            print("HARNESS: detrand shim is not loaded (LD_PRELOAD); refusing to run unreplayable simulations")
            return 2
        warm(mod)
        if replay:
            return do_replay(mod, replay, tier, verbose)
        if run_seed is not None:
            # re-execute ONE run of a batch by its run seed (as printed in replay file names)
            res = run_one(mod, int(run_seed), None, tier, timeout=900.0, want_plan=True)
            print(json.dumps({k: res.get(k) for k in ("verdict", "oracle", "signature", "detail", "digest")}, indent=1)[:6000])
            if res.get("verdict") in ("violation", "error"):
                path = os.path.join(VERIF, "replays", f"{mod.PROPERTY}-{run_seed}.json")
                os.makedirs(os.path.dirname(path), exist_ok=True)
                with open(path, "w") as f:
                    json.dump({"property": mod.PROPERTY, "run_seed": int(run_seed), "tier": tier, "plan": res.get("plan"), "verdict": {k: res.get(k) for k in ("oracle", "signature", "detail", "digest", "vdigest")}}, f, indent=1, default=_jsonable)
                print("saved (unshrunk):", path)
            return 0 if res.get("verdict") == "ok" else 1
        return do_batch(mod, tier, seed, budget, workers, t0)
    finally:
        shutil.rmtree(base, ignore_errors=True)


def do_replay(mod, path, tier, verbose=True):
    with open(path) as f:
        rec = json.load(f)
    res = run_one(mod, rec["run_seed"], rec["plan"], rec.get("tier", tier), timeout=600.0)
    print(json.dumps({k: res.get(k) for k in ("verdict", "oracle", "signature", "detail", "digest")}, indent=1))
    if verbose and res.get("trace_tail"):
        print("--- last events ---")
        for e in res["trace_tail"]:
            print("  ", " | ".join(e))
    if res.get("verdict") == "violation":
        same = res.get("signature") == rec.get("verdict", {}).get("signature")
        print(f"REPLAY: violation reproduced (same signature: {same}; digest equal: {res.get('vdigest') == rec.get('verdict', {}).get('vdigest')})")
        print(f"VIOLATION property={mod.PROPERTY} replay={path}")
        return 1
    print("REPLAY: no violation")
    return 0 if res.get("verdict") == "ok" else 2


def _worker_batch(mod, tier, seed, cfg, deadline, base, nworkers):
    """In-process checks: N workers, each executing its share of runs in fresh threads."""
    pids = []
    outs = []
    for w in range(nworkers):
        outpath = os.path.join(base, f"w{w}.json")
        outs.append(outpath)
        pid = os.fork()
        if pid == 0:
            code = 0
            try:
                worker_main(mod, w, nworkers, seed, tier, cfg, deadline, outpath)
            except BaseException:  # noqa: B036
                traceback.print_exc()
                code = 3
            finally:
                os._exit(code)
        pids.append(pid)
    worker_fail = 0
    for pid in pids:
        _, st = os.waitpid(pid, 0)
        if st != 0:
            worker_fail += 1
    agg = Agg()
    for o in outs:
        try:
            with open(o) as f:
                agg.merge(json.load(f))
        except (OSError, ValueError):
            worker_fail += 1
    return agg, worker_fail


def _forkserver_batch(mod, tier, seed, cfg, deadline, base, nworkers):
    """Fork-isolated checks: THIS process (warmed, otherwise idle) forks one child per
    run and does nothing else until the batch is over, so every run child - in the batch,
    in the determinism re-run and in a later replay from a fresh interpreter - starts from
    the same heap layout (some orders inside the Rust extensions depend on addresses)."""
    prop = mod.PROPERTY
    max_runs = cfg.get("max_runs", 10**9)
    timeout = cfg.get("run_timeout", 60.0)
    nself = cfg.get("selftest", 16)
    # Fixed, pre-allocated bookkeeping: the loop below must leave this process's heap in
    # the same state at every fork (no growing containers, no retained temporaries).
    slot_pid = [0] * nworkers
    slot_kind = [0] * nworkers  # 0 run, 1 recheck
    slot_idx = [0] * nworkers
    slot_t0 = [0.0] * nworkers
    timed_out = [None] * 4096
    n_timed_out = 0
    nxt = 0
    nrecheck = 0
    durations = 0.0
    ndone = 0
    nrunning = 0
    while True:
        now = time.time()
        # reap
        while nrunning:
            try:
                pid, st = os.waitpid(-1, os.WNOHANG)
            except ChildProcessError:
                nrunning = 0
                break
            if pid == 0:
                break
            for k in range(nworkers):
                if slot_pid[k] == pid:
                    durations += now - slot_t0[k]
                    ndone += 1
                    slot_pid[k] = 0
                    nrunning -= 1
                    try:
                        os.killpg(pid, signal.SIGKILL)
                    except (ProcessLookupError, PermissionError):
                        pass
                    break
        for k in range(nworkers):
            if slot_pid[k] and now - slot_t0[k] > timeout:
                try:
                    os.killpg(slot_pid[k], signal.SIGKILL)
                except ProcessLookupError:
                    pass
                try:
                    os.waitpid(slot_pid[k], 0)
                except ChildProcessError:
                    pass
                if n_timed_out < len(timed_out):
                    timed_out[n_timed_out] = (slot_kind[k], slot_idx[k])
                    n_timed_out += 1
                slot_pid[k] = 0
                nrunning -= 1
        est = durations / ndone if ndone else 0.0
        may_start = now + 0.6 * est < deadline and nxt < max_runs
        if may_start and nrunning < nworkers:
            if nxt >= nself and nrecheck < nself:
                kind, idx = 1, nrecheck
                nrecheck += 1
            else:
                kind, idx = 0, nxt
                nxt += 1
            pid = os.fork()
            if pid == 0:
                code = 0
                try:
                    os.setpgid(0, 0)
                    kname = "recheck" if kind else "run"
                    res = run_body(mod, derive_seed(seed, prop, idx), None, tier, want_plan=(idx < 3 and kind == 0))
                    tmp = os.path.join(base, f"res-{kname}-{idx}.tmp")
                    with open(tmp, "w") as f:
                        json.dump(res, f, default=_jsonable)
                    os.replace(tmp, os.path.join(base, f"res-{kname}-{idx}.json"))
                except BaseException:  # noqa: B036
                    code = 3
                    try:
                        traceback.print_exc()
                    except Exception:
                        pass
                finally:
                    os._exit(code)
            for k in range(nworkers):
                if slot_pid[k] == 0:
                    slot_pid[k] = pid
                    slot_kind[k] = kind
                    slot_idx[k] = idx
                    slot_t0[k] = now
                    nrunning += 1
                    break
            continue
        if not nrunning:
            break
        time.sleep(0.004)
    harness_fail = 0
    timed_out = [("recheck" if t[0] else "run", t[1]) for t in timed_out[:n_timed_out]]
    # the batch is over: now this process may allocate freely
    agg = Agg()
    import glob

    for path in sorted(glob.glob(os.path.join(base, "res-*.json"))):
        name = os.path.basename(path)[4:-5]
        kind, idx = name.rsplit("-", 1)
        try:
            with open(path) as f:
                res = json.load(f)
        except (OSError, ValueError):
            harness_fail += 1
            continue
        agg.add(int(idx), res, recheck=(kind == "recheck"))
    for kind, idx in timed_out:
        if kind == "run":
            agg.add(idx, {"run_seed": derive_seed(seed, prop, idx), "verdict": "timeout", "detail": f"run exceeded {timeout}s"})
    for d in glob.glob(os.path.join(base, "r*-*-*")):
        shutil.rmtree(d, ignore_errors=True)
    return agg, 0


def do_batch(mod, tier, seed, budget, workers, t0):
    prop = mod.PROPERTY
    cfg = dict(mod.config(tier))
    if budget:
        cfg["budget_s"] = float(budget)
    nworkers = workers or cfg.get("workers") or NWORKERS
    deadline = t0 + cfg.get("budget_s", 60.0)
    base = os.environ["VERIF_SCRATCH_BASE"]
    if getattr(mod, "ISOLATION", "fork") == "thread":
        agg, worker_fail = _worker_batch(mod, tier, seed, cfg, deadline, base, nworkers)
    else:
        agg, worker_fail = _forkserver_batch(mod, tier, seed, cfg, deadline, base, nworkers)
    batch_wall = time.time() - t0

    # determinism
    pairs = 0
    mismatches = []
    for j, d in sorted(agg.rechecks.items()):
        if j in agg.digests and d is not None and agg.digests[j] is not None:
            pairs += 1
            if agg.digests[j] != d:
                mismatches.append(j)

    known = findings.load(prop)
    status = 0
    lines = []
    new_violations = []
    seen_known = {}
    for v in agg.violations:
        k = findings.match(known, v.get("signature"))
        if k is not None:
            seen_known[json.dumps(k["signature"])] = k
        else:
            new_violations.append(v)
    # in-run reported known findings (checks that classify inside a run)
    unlisted_known = []
    for key in agg.known:
        sig = json.loads(key)
        k = findings.match(known, sig)
        if k is not None:
            seen_known[json.dumps(k["signature"])] = k
        else:
            unlisted_known.append(sig)
    for k in seen_known.values():
        lines.append(f"KNOWN-FINDING: property={prop} {k['what']}")
    replay_paths = []
    done_sigs = set()
    for v in new_violations:
        key = json.dumps(v.get("signature"))
        if key in done_sigs or len(done_sigs) >= 3:
            continue
        done_sigs.add(key)
        path = report_violation(mod, v, tier)
        replay_paths.append(path)
        lines.append(f"VIOLATION property={prop} replay={path}")
        status = 1
    nerr = agg.verdicts.get("error", 0) + worker_fail
    ntimeout = agg.verdicts.get("timeout", 0)
    harness_notes = []
    if mismatches:
        harness_notes.append(f"nondeterminism: run indices {mismatches[:8]} gave different digests on re-run")
    if nerr:
        harness_notes.append(f"{nerr} runs/workers ended in a harness error")
        for e in agg.errors[:2]:
            harness_notes.append(str(e.get("detail"))[-1500:])
        # keep the failing runs replayable for triage
        os.makedirs(os.path.join(VERIF, "replays"), exist_ok=True)
        for e in agg.errors[:3]:
            if e.get("plan") is not None:
                path = os.path.join(VERIF, "replays", f"{prop}-error-{e.get('run_seed')}.json")
                with open(path, "w") as f:
                    json.dump({"property": prop, "run_seed": e.get("run_seed"), "tier": tier, "plan": e.get("plan"), "verdict": {"oracle": "harness-error", "signature": None, "detail": str(e.get("detail"))[-3000:]}}, f, indent=1, default=_jsonable)
                harness_notes.append(f"error run saved: {path}")
    if agg.runs and ntimeout > max(2, agg.runs // 20):
        harness_notes.append(f"{ntimeout} of {agg.runs} runs timed out")
    if agg.runs == 0:
        harness_notes.append("no run completed")
    if unlisted_known:
        harness_notes.append(f"a run suppressed deviations that are not open entries of known_findings.json: {unlisted_known[:3]}")
    if harness_notes and status == 0:
        status = 2
    wall = time.time() - t0
    evidence.write(mod, tier, seed, agg, wall, batch_wall, nworkers, pairs, mismatches, new_violations, seen_known, replay_paths, harness_notes)
    for ln in lines:
        print(ln)
    for n in harness_notes:
        print("HARNESS:", n)
    print(
        f"{prop} {tier}: runs={agg.runs} evaluations={agg.evaluations} nontrivial_distinct={len(agg.nontrivial)} "
        f"verdicts={dict(agg.verdicts)} faults={dict(agg.faults)} determinism={pairs - len(mismatches)}/{pairs} wall={wall:.1f}s exit={status}"
    )
    return status


def report_violation(mod, v, tier):
    prop = mod.PROPERTY
    rec = {
        "property": prop,
        "run_seed": v["run_seed"],
        "tier": tier,
        "hashseed": os.environ.get("PYTHONHASHSEED"),
        "plan": v.get("plan"),
        "verdict": {k: v.get(k) for k in ("oracle", "signature", "detail", "digest", "vdigest")},
    }
    try:
        rec = shrink.minimise(mod, rec, tier, run_one, budget_s=float(os.environ.get("VERIF_SHRINK_BUDGET", "90")))
    except Exception:
        traceback.print_exc()
    os.makedirs(os.path.join(VERIF, "replays"), exist_ok=True)
    path = os.path.join(VERIF, "replays", f"{prop}-{v['run_seed']}.json")
    with open(path, "w") as f:
        json.dump(rec, f, indent=1, default=_jsonable)
    return path
