/* LD_PRELOAD shim: deterministic getrandom/getentropy.
 * The stream is splitmix64 seeded from VERIF_RAND_SEED (default 1) at first use,
 * and can be re-seeded after fork() through detrand_seed().  Used so that Rust
 * HashMap keys, rand_chars() and os.urandom() are a function of the run seed. */
#define _GNU_SOURCE
#include <stddef.h>
#include <stdint.h>
#include <stdlib.h>
#include <sys/types.h>

static uint64_t state;
static int seeded;
static uint64_t draws;

static uint64_t next64(void) {
    if (!seeded) {
        const char *s = getenv("VERIF_RAND_SEED");
        state = s ? strtoull(s, NULL, 10) : 1ULL;
        seeded = 1;
    }
    draws++;
    uint64_t z = (state += 0x9E3779B97F4A7C15ULL);
    z = (z ^ (z >> 30)) * 0xBF58476D1CE4E5B9ULL;
    z = (z ^ (z >> 27)) * 0x94D049BB133111EBULL;
    return z ^ (z >> 31);
}

static void fill(unsigned char *p, size_t n) {
    while (n) {
        uint64_t v = next64();
        for (int i = 0; i < 8 && n; i++, n--) { *p++ = (unsigned char)(v & 0xff); v >>= 8; }
    }
}

void detrand_seed(uint64_t s) { state = s; seeded = 1; draws = 0; }
uint64_t detrand_draws(void) { return draws; }

ssize_t getrandom(void *buf, size_t buflen, unsigned int flags) {
    (void)flags; fill((unsigned char *)buf, buflen); return (ssize_t)buflen;
}
int getentropy(void *buf, size_t buflen) {
    fill((unsigned char *)buf, buflen); return 0;
}
