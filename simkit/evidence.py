"""Writer for /verif/evidence/<id>.json (EVIDENCE.schema.json)."""

import json
import os

VERIF = os.path.dirname(os.path.dirname(os.path.abspath(__file__)))


def write(mod, tier, seed, agg, wall, batch_wall, nworkers, pairs, mismatches, new_violations, seen_known, replay_paths, harness_notes):
    prop = mod.PROPERTY
    hours = max(batch_wall, 1e-6) / 3600.0
    samples = list(agg.samples)
    if not samples:
        samples = [{"note": "no sample recorded"}]
    cov = {
        "evaluations": int(agg.evaluations),
        "distinct_nontrivial": len(agg.nontrivial),
        "rule": getattr(mod, "RULE", ""),
        "samples": samples,
        "runs": agg.runs,
        "distinct_run_digests": len(agg.all_digests),
        "distinct_model_states": len(agg.states),
        "runs_per_hour": int(agg.runs / hours),
        "evaluations_per_hour": int(agg.evaluations / hours),
        "seeds_per_hour": int(agg.runs / hours),
        "sim_seconds": round(agg.sim_seconds, 1),
        "scheduler_steps": agg.steps,
        "context_switches": agg.switches,
        "faults_fired": dict(agg.faults),
        "probes": dict(agg.probes),
        "verdicts": dict(agg.verdicts),
        "workers": nworkers,
        "determinism": {"pairs_rerun_in_other_worker": pairs, "mismatches": len(mismatches)},
        "components": getattr(mod, "COMPONENTS", {}),
        "known_findings_hit": [k["what"] for k in seen_known.values()],
        "replays": replay_paths,
        "harness_notes": harness_notes,
        "exhaustive": False,
    }
    ev = {
        "property_id": prop,
        "tier": tier if tier in ("quick", "thorough") else "quick",
        "seed": int(seed),
        "level": getattr(mod, "LEVEL", "exploration"),
        "coverage": cov,
        "assumptions": list(getattr(mod, "ASSUMPTIONS", [])),
        "wall_s": round(wall, 2),
        "violations": len(new_violations),
    }
    os.makedirs(os.path.join(VERIF, "evidence"), exist_ok=True)
    path = os.path.join(VERIF, "evidence", f"{prop}.json")
    tmp = path + ".tmp"
    with open(tmp, "w") as f:
        json.dump(ev, f, indent=1, default=repr, sort_keys=True)
    os.replace(tmp, path)
    return path
