"""Construction of simulated worlds: stores, clocks, environment."""

import os
import sys

from . import transport as simtransport
from .sim import VClock

_stores = {}


def new_store(name="s1"):
    """A fresh, empty in-memory disk; returns its sim URL (every op goes through the
    seam).  Calling it again with the same name replaces the store (new run)."""
    from dromedary import register_transport, unregister_transport
    from dromedary._transport_rs.memory import MemoryStoreHandle
    from dromedary.memory import MemoryTransport

    scheme = f"memory+{name}:///"
    if name in _stores:
        unregister_transport(scheme, _stores.pop(name))
    handle = MemoryStoreHandle()

    def factory(url, _h=handle):
        return MemoryTransport(url, _shared_store=_h)

    _stores[name] = factory
    register_transport(scheme, factory)
    return "sim+" + scheme


def reset_stores():
    from dromedary import unregister_transport

    for name in list(_stores):
        unregister_transport(f"memory+{name}:///", _stores.pop(name))


def install_clock(sim, modules=("breezy.lockdir",)):
    import importlib
    import time as real_time

    for m in modules:
        mod = importlib.import_module(m)
        if not isinstance(mod.time, VClock):
            mod.time = VClock(real_time)


def setup_sim(sim, clock_modules=("breezy.lockdir",)):
    simtransport.install(sim)
    install_clock(sim, clock_modules)


def quiet_breezy():
    """Initialise breezy for library use: silent UI, no plugins except the bundled
    ones loaded explicitly by checks."""
    import breezy
    from breezy import ui

    if getattr(breezy, "_global_state", None) is None:
        breezy.initialize()
    ui.ui_factory = ui.SilentUIFactory()
    import logging

    lg = logging.getLogger("brz")
    for h in list(lg.handlers):
        if getattr(h, "stream", None) is not None and h.stream in (sys.stderr, sys.stdout):
            lg.removeHandler(h)
    import breezy.bzr  # noqa: F401 - registers formats
    import breezy.git  # noqa: F401
