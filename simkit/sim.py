"""Deterministic simulation core: actors, seeded scheduler, virtual clock, fault plan,
event log, probes.

One `Sim` exists per simulated run (one forked child per run).  Code under test meets
the simulator only at seams: `SimTransport` (storage), `VClock` (time), `FaultyOS`
(working-tree syscalls), `SimPipe` (network).  Every seam calls `Sim.before_op` /
`Sim.after_op`; that is where scheduling and fault decisions are taken.

Nothing here draws from a PRNG or reads a clock while logging.
"""

import hashlib
import random
import threading
from collections import Counter

MAIN = "main"

# thread -> (sim, actor).  A thread left over from an earlier run (a "zombie" that
# swallowed its SimCrash) keeps pointing at its own dead actor, never at a later run.
CTX = threading.local()


def cur_sim():
    s = getattr(CTX, "sim", None)
    if s is None:
        raise RuntimeError("seam reached from a thread the simulator does not own")
    return s


class SimCrash(BaseException):
    """The simulated process has stopped.  Raised at the seam; every later seam call
    by the same actor raises it again without any effect on the simulated world."""


class Violation(Exception):
    """A property oracle failed."""

    def __init__(self, oracle, signature, detail):
        Exception.__init__(self, f"{oracle}: {detail}")
        self.oracle = oracle
        self.signature = list(signature)
        self.detail = detail


class HarnessTruncated(Exception):
    """Step cap exceeded (not a property verdict unless the check says so)."""


def substream(seed, name):
    h = hashlib.sha256(f"{seed}:{name}".encode()).digest()
    return random.Random(int.from_bytes(h[:8], "big"))


def derive_seed(*parts):
    h = hashlib.sha256(":".join(str(p) for p in parts).encode()).digest()
    return int.from_bytes(h[:6], "big")


class Actor:
    def __init__(self, sim, name, fn=None):
        self.sim = sim
        self.name = name
        self.fn = fn
        self.sem = threading.Semaphore(0)
        self.state = "new"  # new | runnable | sleeping | done | dead
        self.wake = 0.0
        self.nops = 0  # every intercepted op
        self.nmut = 0  # mutating ops only
        self.thread = None
        self.exc = None
        self.result = None
        self.pending_crash_after = False
        self.opcount = {}  # per-op-name counters (faults addressed as "the n-th delete")

    @property
    def dead(self):
        return self.state == "dead"


class Sim:
    """See module docstring."""

    def __init__(self, seed, plan=None, step_cap=20000):
        self.seed = seed
        self.plan = plan or {}
        self.step_cap = step_cap
        self.clock = 1_000_000.0  # virtual seconds; arbitrary positive epoch
        self.op_latency = 0.001
        self.log = []
        self.vol = {}
        self.on_kill = []
        self.probes = Counter()
        self.faults_fired = Counter()
        self.states = set()
        self.nontrivial = False
        self.notes = {}
        self.actors = {}
        self.main_actor = Actor(self, MAIN)
        self.main_actor.state = "runnable"
        self.actors[MAIN] = self.main_actor
        CTX.sim = self
        CTX.actor = self.main_actor
        self._main_sem = threading.Semaphore(0)
        self.multi = False
        self.steps = 0
        self.switches = 0
        # faults: list of dicts {actor, at, count:'mut'|'any', kind, ...}
        self.faults = list(self.plan.get("faults", []))
        self.fault_filter = None  # optional fn(actor, op, path) -> bool: op counts as a fault site
        self.sched_policy = self.plan.get("policy", "random")
        self.sched_rng = substream(seed, "schedule")
        self.fault_rng = substream(seed, "faults")
        self.io_rng = substream(seed, "io")
        self.sched_in = self.plan.get("sched")  # explicit schedule for replay/shrink
        self.sched_pos = 0
        self.sched_out = []
        self.preempt_at = set(self.plan.get("preempt_at", []))
        self.monitors = []  # fn(sim, actor, phase, op, args) called at before/after
        self.invariants = []  # fn(sim) called after each op; raise Violation
        self.violation = None
        self.truncated = False
        self.quiet_zombies = True

    # -- identity -------------------------------------------------------------------
    def current(self):
        if getattr(CTX, "sim", None) is not self:
            raise RuntimeError("seam reached from a thread that belongs to another run")
        return CTX.actor

    def rng(self, name):
        return substream(self.seed, name)

    # -- logging ----------------------------------------------------------------------
    def event(self, *fields, vol=None):
        """Append to the event log.  `vol` (volatile detail such as byte counts of
        payloads that embed real timestamps) is kept for display but not hashed."""
        self.log.append(tuple(str(f) for f in fields))
        if vol is not None:
            self.vol[len(self.log) - 1] = str(vol)

    def digest(self):
        h = hashlib.sha1()
        for e in self.log:
            h.update("\x1f".join(e).encode("utf-8", "replace"))
            h.update(b"\n")
        return h.hexdigest()

    def probe(self, name, n=1):
        self.probes[name] += n

    def state_seen(self, obj):
        self.states.add(hashlib.sha1(repr(obj).encode("utf-8", "replace")).hexdigest()[:16])

    def fail(self, oracle, signature, detail):
        v = Violation(oracle, signature, detail)
        if self.violation is None:
            self.violation = v
        raise v

    # -- clock ------------------------------------------------------------------------
    def time(self):
        return self.clock

    def sleep(self, seconds):
        a = self.current()
        if a.dead:
            raise SimCrash()
        self.event(a.name, "sleep", f"{seconds:g}")
        if not self.multi:
            self.clock += max(0.0, seconds)
            return
        a.wake = self.clock + max(0.0, seconds)
        a.state = "sleeping"
        self._handoff(a)
        if a.dead:
            raise SimCrash()

    # -- seam entry points ----------------------------------------------------------------
    def before_op(self, op, path="", mutating=False, extra="", vol=None):
        """Called by a seam before it applies `op`.  Returns None to proceed, or a
        fault directive ('crash_after',) / ('torn', fraction) the seam must honour.
        May raise an injected error or SimCrash."""
        a = self.current()
        if a.dead:
            raise SimCrash()
        self.steps += 1
        if self.steps > self.step_cap:
            self.truncated = True
            raise HarnessTruncated(f"step cap {self.step_cap}")
        if self.multi:
            self._yield_point(a)
            if a.dead:
                raise SimCrash()
        counts = self.fault_filter is None or self.fault_filter(a, op, path, mutating)
        a.nops += 1
        if mutating:
            a.nmut += 1
        a.opcount[op] = a.opcount.get(op, 0) + 1
        self.clock += self.op_latency
        directive = None
        if counts and self.faults:
            directive = self._fault_for(a, op, path, mutating)
        for m in self.monitors:
            m(self, a, "before", op, path, extra)
        if directive is None:
            self.event(a.name, op, path, extra, vol=vol)
            return None
        kind = directive["kind"]
        self.faults_fired[kind] += 1
        self.event(a.name, op, path, extra, "FAULT:" + kind, vol=vol)
        if kind == "err_before":
            raise directive["exc"]
        if kind == "crash":
            if directive.get("applied"):
                a.pending_crash_after = True
                if directive.get("torn") is not None:
                    return ("torn_crash", directive["torn"])
                return ("crash_after",)
            self._die(a)
        if kind == "torn":
            return ("torn", directive.get("torn", 0.5))
        return None

    def after_op(self, op="", path=""):
        a = self.current()
        for m in self.monitors:
            m(self, a, "after", op, path, "")
        if a.pending_crash_after:
            a.pending_crash_after = False
            self._die(a)
        for inv in self.invariants:
            inv(self)

    def arm(self, faults, actor=None):
        """Install a fault list; op counters of `actor` (default: current) restart at 0
        so that `at` is relative to the operation under test."""
        a = actor or self.current()
        a.nops = 0
        a.nmut = 0
        a.opcount = {}
        self.faults = [dict(f) for f in faults]

    def disarm(self):
        self.faults = []

    def _fault_for(self, a, op, path, mutating):
        for f in self.faults:
            if f.get("done"):
                continue
            if f.get("actor", a.name) != a.name:
                continue
            if f.get("op") and f["op"] != op:
                continue
            if "nth" in f:
                # the n-th operation of this name since arm()
                if not f.get("op") or a.opcount.get(op, 0) != f["nth"]:
                    continue
            else:
                which = f.get("count", "mut")
                idx = a.nmut if which == "mut" else a.nops
                if which == "mut" and not mutating:
                    continue
                if idx != f["at"]:
                    continue
            f["done"] = True
            d = dict(f)
            if d["kind"] == "err_before" and "exc" not in d:
                d["exc"] = self.make_error(d.get("err", "transport"), path)
            return d
        return None

    @staticmethod
    def make_error(name, path):
        from dromedary import errors as te

        if name == "nosuchfile":
            return te.NoSuchFile(path)
        if name == "permission":
            return te.PermissionDenied(path)
        if name == "enospc":
            return OSError(28, "No space left on device (injected)", path)
        if name == "connection":
            return te.ConnectionError(f"injected connection error at {path}")
        return te.TransportError(f"injected transport error at {path}")

    # -- actors and scheduling ---------------------------------------------------------
    def kill(self, actor):
        """Stop an actor: it will never touch the world again."""
        if actor.state != "dead":
            actor.state = "dead"
            self.event(actor.name, "DIES")
            for cb in self.on_kill:
                cb(actor)

    def spawn(self, name, fn):
        a = Actor(self, name, fn)
        self.actors[name] = a
        return a

    def run_actors(self, names=None, hang_timeout=60.0):
        """Run spawned actors to quiescence under the seeded scheduler."""
        todo = [a for n, a in self.actors.items() if n != MAIN and a.state == "new" and (names is None or n in names)]
        if not todo:
            return
        self.multi = True
        for a in todo:
            a.state = "runnable"
            a.ready = threading.Event()
            a.thread = threading.Thread(target=self._actor_main, args=(a,), daemon=True)
            a.thread.start()
            # one thread at a time, also during start-up: allocation order (and with it
            # every address-dependent order in extension code) must not depend on timing
            a.ready.wait(30)
        first = self._choose(None)
        if first is not None:
            first.sem.release()
            if not self._main_sem.acquire(timeout=hang_timeout):
                self.multi = False
                raise HarnessTruncated("scheduler hang (actor blocked outside a seam)")
        self.multi = False
        for a in todo:
            if isinstance(a.exc, (Violation, HarnessTruncated)):
                raise a.exc

    def _actor_main(self, a):
        CTX.sim = self
        CTX.actor = a
        a.ready.set()
        a.sem.acquire()
        try:
            if not a.dead:
                a.result = a.fn()
        except SimCrash:
            pass
        except BaseException as e:  # noqa: B036 - recorded, examined by the check
            a.exc = e
            if isinstance(e, Violation) and self.violation is None:
                self.violation = e
        finally:
            was_dead = a.dead
            if not was_dead:
                a.state = "done"
                self.event(a.name, "EXIT", type(a.exc).__name__ if a.exc else "ok")
                stop = isinstance(a.exc, (Violation, HarnessTruncated))
                nxt = None if stop else self._choose(None)
                if nxt is None:
                    self._main_sem.release()
                else:
                    nxt.sem.release()
            # a dead actor handed the baton on when it died

    def _runnable(self):
        return [a for n, a in sorted(self.actors.items()) if n != MAIN and a.state == "runnable"]

    def _choose(self, cur):
        """Pick the next actor to run.  `cur` is the yielding actor if it remains
        runnable, else None."""
        cands = self._runnable()
        if not cands:
            sleepers = [a for n, a in sorted(self.actors.items()) if a.state == "sleeping"]
            if not sleepers:
                return None
            t = min(a.wake for a in sleepers)
            if t > self.clock:
                self.clock = t
            for a in sleepers:
                if a.wake <= self.clock:
                    a.state = "runnable"
            cands = self._runnable()
        if len(cands) == 1:
            return cands[0]
        chosen = None
        if self.sched_in is not None:
            if self.sched_pos < len(self.sched_in):
                want = self.sched_in[self.sched_pos]
                self.sched_pos += 1
                for a in cands:
                    if a.name == want:
                        chosen = a
            if chosen is None:
                chosen = cur if (cur is not None and cur in cands) else cands[0]
        else:
            pol = self.sched_policy
            if pol == "random":
                chosen = cands[self.sched_rng.randrange(len(cands))]
            elif pol == "rr":
                chosen = cands[(self.steps) % len(cands)]
            else:  # pct-like: keep running unless this step is a pre-emption point
                if cur is not None and cur in cands and self.steps not in self.preempt_at:
                    chosen = cur
                else:
                    others = [a for a in cands if a is not cur] or cands
                    chosen = others[self.sched_rng.randrange(len(others))]
        self.sched_out.append(chosen.name)
        return chosen

    def _yield_point(self, a):
        nxt = self._choose(a)
        if nxt is a or nxt is None:
            return
        self.switches += 1
        nxt.sem.release()
        a.sem.acquire()

    def _handoff(self, a):
        """`a` cannot continue now (sleeping or dead): give the baton away."""
        nxt = self._choose(None)
        if nxt is a:
            return
        if nxt is None:
            if a.state == "sleeping":  # cannot happen: a itself is a sleeper
                return
            self._main_sem.release()
            return
        self.switches += 1
        nxt.sem.release()
        if a.state != "dead":
            a.sem.acquire()

    def _die(self, a):
        self.kill(a)
        if self.multi and a is not self.main_actor:
            self._handoff(a)
        raise SimCrash()

    def die_here(self):
        """The current actor stops now (holder death, explicit crash op)."""
        self._die(self.current())

    def restart_main(self, name=None):
        """A fresh process: the main actor gets a new identity and may act again."""
        self._incarnation = getattr(self, "_incarnation", 1) + 1
        a = Actor(self, name or f"{MAIN}#{self._incarnation}")
        a.state = "runnable"
        self.actors[a.name] = a
        self.main_actor = a
        CTX.actor = a
        self.event(a.name, "START")
        return a


class VClock:
    """Drop-in for the `time` module attribute of modules that poll or time out.
    Always consults the simulation that owns the calling thread."""

    def __init__(self, real):
        self._real = real

    def time(self):
        return cur_sim().time()

    def monotonic(self):
        return cur_sim().time()

    def sleep(self, s):
        cur_sim().sleep(s)

    def __getattr__(self, name):
        return getattr(self._real, name)
