#!/usr/bin/env python3
"""Regenerate the per-check status table in DESIGN.md (between STATUS-TABLE markers) from MANIFEST.json,
known_findings.json, seeded/*/meta.json and the evidence files of the last quick runs."""
import glob
import json
import os
import re
import subprocess

root = os.path.dirname(os.path.dirname(os.path.abspath(__file__)))
man = json.load(open(os.path.join(root, "MANIFEST.json")))
kf = json.load(open(os.path.join(root, "known_findings.json")))
seeded = {}
for f in glob.glob(os.path.join(root, "seeded", "*", "meta.json")):
    m = json.load(open(f))
    for c in m.get("detected_by") or []:
        seeded.setdefault(c, [0])[0] += 1
rows = ["| check | level | runs (last quick) | evaluations | fault kinds fired | distinct non-trivial | open findings | fixed in /repo | seeded changes caught |", "|---|---|---|---|---|---|---|---|---|"]
tot_runs = 0
for c in man["checks"]:
    pid = c["property_id"]
    try:
        ev = json.load(open(os.path.join(root, "evidence", pid + ".json")))
        cov = ev.get("coverage", {})
    except OSError:
        cov = {}
    o = len({tuple(e["signature"]) for e in kf if e["property"] == pid and e["status"] == "open"})
    fx = len({e.get("commit") for e in kf if e["property"] == pid and e["status"] == "fixed"})
    faults = ", ".join(f"{k} {v}" for k, v in sorted((cov.get("faults_fired") or {}).items())) or "-"
    tot_runs += cov.get("runs", 0) or 0
    rows.append(f"| {pid} | {c['level_claimed']['category']} | {cov.get('runs', '?')} | {cov.get('evaluations', '?')} | {faults} | {cov.get('distinct_nontrivial', '?')} | {o} | {fx} | {seeded.get(pid, [0])[0]} |")
fixes = subprocess.run(["git", "-C", "/repo", "log", "--oneline", "--grep=^fix:"], capture_output=True, text=True).stdout.strip().splitlines()
rows.append("")
rows.append(f"{len(man['checks'])} properties claimed, {len(man['not_applicable'])} not applicable; {len(fixes)} `fix:` commits in /repo; "
            f"{sum(1 for e in kf if e['status'] == 'open')} open and {sum(1 for e in kf if e['status'] == 'fixed')} fixed entries in known_findings.json; "
            f"{tot_runs} simulated runs in the last quick pass over all checks.")
text = "\n".join(rows)
p = os.path.join(root, "DESIGN.md")
s = open(p).read()
a, b = "<!-- STATUS-TABLE:BEGIN -->", "<!-- STATUS-TABLE:END -->"
if a in s:
    s = re.sub(re.escape(a) + r".*?" + re.escape(b), lambda _m: a + "\n" + text + "\n" + b, s, flags=re.S)
    open(p, "w").write(s)
    print("status table updated")
else:
    print(text)
