#!/bin/sh
# tools/verify_mutant.sh <worktree> <m1|m2> <dest-id> [test files...]
# Confirms a sub-agent's mutant: demo passes on HEAD, fails with the patch; optional tests
# give the same summary line with and without the patch.  Copies it to /verif/seeded/<dest-id>/.
set -u
wt=$1; m=$2; id=$3; shift 3
cd "$wt" || exit 2
git checkout -q -- . 
/venv/bin/python mutants/${m}_demo.py >/tmp/vm_head.out 2>&1; h=$?
t_head=""; t_mut=""
if [ $# -gt 0 ]; then t_head=$(/venv/bin/python -m pytest -q -p no:cacheprovider "$@" 2>&1 | tail -1); fi
git apply mutants/$m.diff || { echo "patch does not apply"; exit 2; }
/venv/bin/python mutants/${m}_demo.py >/tmp/vm_mut.out 2>&1; x=$?
if [ $# -gt 0 ]; then t_mut=$(/venv/bin/python -m pytest -q -p no:cacheprovider "$@" 2>&1 | tail -1); fi
git checkout -q -- .
echo "demo on HEAD exit=$h, with patch exit=$x"
echo "tests HEAD: $t_head"
echo "tests MUT : $t_mut"
if [ "$h" = 0 ] && [ "$x" != 0 ]; then
  d=/verif/seeded/$id; mkdir -p $d
  cp mutants/$m.diff $d/patch.diff; cp mutants/${m}_demo.py $d/demo.py; cp mutants/$m.md $d/notes.md 2>/dev/null
  echo "confirmed -> $d"
else
  echo "NOT confirmed"; tail -5 /tmp/vm_head.out /tmp/vm_mut.out
fi
