#!/usr/bin/env python3
"""Regenerate the table of seeded changes in DESIGN.md (between the SEEDED-TABLE markers) from seeded/*/meta.json."""
import glob
import json
import os
import re

root = os.path.dirname(os.path.dirname(os.path.abspath(__file__)))
rows = ["| id | breaks | change | what it needs | caught by | remark |", "|---|---|---|---|---|---|"]
caught = missed = later = 0
for f in sorted(glob.glob(os.path.join(root, "seeded", "*", "meta.json"))):
    m = json.load(open(f))
    sid = os.path.basename(os.path.dirname(f))
    det = ", ".join(m.get("detected_by") or []) or "**missed**"
    if m.get("detected_by"):
        caught += 1
        if any(w in m.get("note", "").lower() for w in ("missed at first", "marginal at first", "first try ended", "undecided")):
            later += 1
    else:
        missed += 1
    cell = lambda s: str(s).replace("|", "/").replace("\n", " ")
    rows.append(f"| {sid} | {m['breaks_property']} | {cell(m['summary'])} | {cell(m['needs'])} | {det} | {cell(m.get('note', ''))} |")
waves = {"1": [0, 0], "2": [0, 0], "3": [0, 0], "4": [0, 0]}
for f in sorted(glob.glob(os.path.join(root, "seeded", "*", "meta.json"))):
    m = json.load(open(f))
    sid = os.path.basename(os.path.dirname(f))
    w = "4" if sid.endswith("z") else ("3" if sid.endswith("y") else ("2" if sid.endswith("x") else "1"))
    waves[w][1] += 1
    n = m.get("note", "").lower()
    if m.get("detected_by") and not any(k in n for k in ("missed at first", "marginal at first", "first try ended", "undecided")):
        waves[w][0] += 1
rows.append("")
rows.append("Caught by the check as it stood when the change arrived: " + "; ".join(f"wave {w} ({'initial checks' if w == '1' else 'ids ending in ' + {'2': 'x', '3': 'y', '4': 'z'}[w] + ', written against checks already extended'}): {a} of {b}" for w, (a, b) in waves.items() if b) + ".")
rows.append(f"Totals: {caught + missed} confirmed changes; {caught - later} were caught by the check as it stood when the change arrived, {later} only after the check had been extended (the extension is named in the remark and in `checks/registry.py` EXTENSIONS), {missed} are not caught.")
text = "\n".join(rows)
p = os.path.join(root, "DESIGN.md")
s = open(p).read()
a, b = "<!-- SEEDED-TABLE:BEGIN -->", "<!-- SEEDED-TABLE:END -->"
if a in s:
    s = re.sub(re.escape(a) + r".*?" + re.escape(b), lambda _m: a + "\n" + text + "\n" + b, s, flags=re.S)
    open(p, "w").write(s)
    print("table updated:", caught, "caught,", missed, "missed")
else:
    print(text)
