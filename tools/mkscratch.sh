#!/bin/sh
# tools/mkscratch.sh <name>: make /tmp/scratch/<name> = copy of /repo's python sources with
# the built extension modules symlinked, for sensitivity experiments:
#   VERIF_REPO=/tmp/scratch/<name> ./check Cxx --budget 30
# Remove it afterwards: rm -rf /tmp/scratch/<name>
set -e
d=/tmp/scratch/$1
rm -rf "$d"; mkdir -p "$d"
rsync -a --exclude='*.so' --exclude='__pycache__' /repo/breezy "$d"/
for so in /repo/breezy/*.so; do ln -s "$so" "$d/breezy/$(basename "$so")"; done
echo "$d"
