#!/bin/sh
# tools/try_mutant.sh <seeded-id> <budget> <check> [check...]: run checks against a seeded mutant
# in a python-only scratch copy (never touches /repo).
id=$1; budget=$2; shift 2
d=/tmp/scratch/try-$id
/verif/tools/mkscratch.sh try-$id >/dev/null
patch -s -p1 -d $d < /verif/seeded/$id/patch.diff || { echo "patch failed"; rm -rf $d; exit 2; }
for c in "$@"; do
  echo "== $id vs $c"
  cp /verif/evidence/$c.json /tmp/scratch/evidence-$c-$$.json 2>/dev/null  # evidence must describe runs against /repo, not a mutant
  (cd /verif && VERIF_REPO=$d ./check $c --budget $budget --workers ${WORKERS:-8} 2>&1 | grep -v "^KNOWN" | grep "VIOLATION\|quick:\|HARNESS: [a-z0-9]" | cut -c1-260 | tail -5)
  [ -f /tmp/scratch/evidence-$c-$$.json ] && mv /tmp/scratch/evidence-$c-$$.json /verif/evidence/$c.json
done
rm -rf $d
