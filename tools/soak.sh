#!/bin/sh
# tools/soak.sh "<seeds>" [budget]: run every registered check's quick tier for the given seeds;
# print one line per (check, seed) and the VIOLATION/HARNESS lines of runs that did not exit 0.
seeds=${1:-"2 3"}; budget=$2
cd "$(dirname "$0")/.."
checks=$(python3 -c "import json;print(' '.join(c['property_id'] for c in json.load(open('MANIFEST.json'))['checks']))")
for s in $seeds; do for c in $checks; do
  if [ -n "$budget" ]; then out=$(./check $c --seed $s --budget $budget 2>&1); else out=$(./check $c --seed $s 2>&1); fi; rc=$?
  echo "$c seed=$s rc=$rc $(echo "$out" | tail -1 | cut -c1-160)"
  if [ $rc != 0 ]; then echo "$out" | grep "VIOLATION\|HARNESS" | cut -c1-400; cp replays/$c-*.json /tmp/soak-replays/ 2>/dev/null; fi
done; done
