#!/bin/sh
# tools/final_evidence.sh: regenerate every evidence file by running each registered quick command
# (VERIF_SEED=1, as the acceptance check does) in /verif against /repo, then validate schemas.
cd "$(dirname "$0")/.."
./setup.sh >/dev/null 2>&1
checks=$(python3 -c "import json;print(' '.join(c['property_id'] for c in json.load(open('MANIFEST.json'))['checks']))")
rc_all=0
for c in $checks; do
  out=$(VERIF_SEED=1 ./check $c --tier quick 2>&1); rc=$?
  echo "$c rc=$rc $(echo "$out" | tail -1 | cut -c1-200)"
  if [ $rc != 0 ]; then rc_all=1; echo "$out" | grep "VIOLATION\|HARNESS" | cut -c1-300; fi
done
python3-vt - <<'PY'
import json,glob,jsonschema
ms=json.load(open('/root/.vp/MANIFEST.schema.json')); es=json.load(open('/root/.vp/EVIDENCE.schema.json'))
jsonschema.validate(json.load(open('MANIFEST.json')),ms)
n=0
for f in sorted(glob.glob('evidence/*.json')):
    jsonschema.validate(json.load(open(f)),es); n+=1
print('schemas ok:', n, 'evidence files')
PY
exit $rc_all
