#!/bin/sh
# tools/prep_mut.sh <Cxx>...: scratch worktree /tmp/wt-<Cxx> (extensions symlinked) + prompt file /tmp/mutprompt-<Cxx>.txt
for p in "$@"; do
  d=/tmp/wt-$p
  git -C /repo worktree add -q --detach $d HEAD || continue
  for so in /repo/breezy/*.so; do ln -sf $so $d/breezy/$(basename $so); done
  python3 - "$p" <<'PY'
import json,sys
pid=sys.argv[1]
props={json.loads(l)['id']:json.loads(l) for l in open('/verif/properties.jsonl')}
p=props[pid]; txt=json.dumps({k:p[k] for k in ('id','title','statement','quantifier','anchors')}, indent=1)
t=open('/tmp/mutprompt.txt').read().replace('WORKTREE','/tmp/wt-'+pid).replace('PROPTEXT',txt)
open(f'/tmp/mutprompt-{pid}.txt','w').write(t)
PY
done
git -C /repo worktree list | wc -l
