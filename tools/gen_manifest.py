#!/usr/bin/env python3
"""Generate MANIFEST.json from checks/registry.py (claimed checks) and the fixed
properties file (everything else is listed under not_applicable with its reason)."""
import json
import os
import sys

VERIF = os.path.dirname(os.path.dirname(os.path.abspath(__file__)))
sys.path.insert(0, VERIF)
from checks import registry  # noqa: E402

props = [json.loads(l) for l in open(os.path.join(VERIF, "properties.jsonl"))]
ids = [p["id"] for p in props]
checks = []
for pid in ids:
    c = registry.CLAIMED.get(pid)
    if not c:
        continue
    checks.append(
        {
            "property_id": pid,
            "quick_cmd": f"./check {pid} --tier quick",
            "thorough_cmd": f"./check {pid} --tier thorough",
            "evidence_file": f"/verif/evidence/{pid}.json",
            "replay_cmd_template": f"./check {pid} --replay {{path}}",
            "engine": "simkit",
            "level_claimed": {"category": c["level"], "text": c["text"] + ((" Added after seeded changes exposed gaps: " + registry.EXTENSIONS[pid]) if pid in getattr(registry, "EXTENSIONS", {}) else ""), "design_ref": c.get("design_ref", f"DESIGN.md section 5, {pid}")},
            "level_note": c["note"],
            "technique": c.get("technique", "deterministic simulation with fault injection: seeded search over schedules and fault sequences"),
        }
    )
na = []
for pid in ids:
    if pid in registry.CLAIMED:
        continue
    reason = registry.NOT_APPLICABLE.get(pid) or registry.NOT_BUILT.get(pid) or "not claimed: no sound simulated check has been built for this property yet (see DESIGN.md)"
    na.append({"property_id": pid, "reason": reason})
manifest = {
    "version": 1,
    "setup_cmd": "./setup.sh",
    "hooks": {
        "guard": "BREEZY_VERIF",
        "enable": "no source hooks: all seams are existing interfaces (dromedary Transport registry, module attributes, medium classes); checks export BREEZY_VERIF=1 for uniformity",
        "baseline_off_cmd": "cd /repo && /venv/bin/python -m pytest -ra -q -p no:cacheprovider --timeout=900 --continue-on-collection-errors",
        "source_commits": registry.HOOK_COMMITS,
        "add_only": True,
    },
    "engines": [
        {
            "name": "simkit",
            "path": "/verif/simkit",
            "serves_properties": sorted(registry.CLAIMED),
            "kind_free_text": "deterministic simulator: seeded scheduler over baton-passing actor threads, virtual clock, fault-injecting transport/os/pipe seams, run records with shrinking and exact replay",
        }
    ],
    "checks": checks,
    "not_applicable": na,
    "notes": "All checks: ./check <id> --tier quick|thorough [--seed N]; VERIF_SEED / VERIF_TIER honoured. Exit 0 held / 1 VIOLATION / 2 harness problem.",
}
with open(os.path.join(VERIF, "MANIFEST.json"), "w") as f:
    json.dump(manifest, f, indent=1)
print(f"{len(checks)} checks, {len(na)} not claimed")
