#!/bin/sh
# tools/thorough_smoke.sh [budget] [seed]: run every registered check's THOROUGH tier with a short budget
# (generator sizes, fault menus and step caps are the thorough ones; only the wall budget is cut).
budget=${1:-60}; seed=${2:-1}
cd "$(dirname "$0")/.."
checks=$(python3 -c "import json;print(' '.join(c['property_id'] for c in json.load(open('MANIFEST.json'))['checks']))")
mkdir -p /tmp/soak-replays
for c in $checks; do
  out=$(./check $c --tier thorough --seed $seed --budget $budget 2>&1); rc=$?
  echo "$c thorough seed=$seed rc=$rc $(echo "$out" | tail -1 | cut -c1-200)"
  if [ $rc != 0 ]; then echo "$out" | grep "VIOLATION\|HARNESS" | cut -c1-400; cp replays/$c-*.json /tmp/soak-replays/ 2>/dev/null; fi
done
