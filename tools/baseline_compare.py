#!/usr/bin/env python3
"""Compare a junit xml of the repository's suite with /root/.vp/BASELINE.json stable_pass."""
import json, sys, xml.etree.ElementTree as ET
base = json.load(open('/root/.vp/BASELINE.json'))
stable = set(base['stable_pass'])
root = ET.parse(sys.argv[1]).getroot()
status = {}
for tc in root.iter('testcase'):
    name = f"{tc.get('classname')}::{tc.get('name')}"
    bad = any(ch.tag in ('failure', 'error') for ch in tc)
    skipped = any(ch.tag == 'skipped' for ch in tc)
    status[name] = 'fail' if bad else ('skip' if skipped else 'pass')
missing = [n for n in stable if n not in status]
notpass = [n for n in stable if status.get(n) not in ('pass',) and n in status]
print(f"stable_pass={len(stable)} seen={len(status)} missing={len(missing)} not_passing={len(notpass)}")
for n in notpass[:40]: print('  NOT PASSING:', n, status[n])
for n in missing[:10]: print('  MISSING:', n)
