#!/bin/sh
# Offline setup: build the getrandom shim, check that the simulator starts.
set -e
cd "$(dirname "$0")"
mkdir -p build evidence replays
gcc -O2 -shared -fPIC -o build/detrand.so simkit/detrand.c
LD_PRELOAD=$PWD/build/detrand.so VERIF_RAND_SEED=7 /venv/bin/python -c "
import os
a = os.urandom(8).hex()
import ctypes
l = ctypes.CDLL(None); l.detrand_seed.argtypes=[ctypes.c_uint64]
l.detrand_seed(7); b = os.urandom(8).hex(); l.detrand_seed(7); c = os.urandom(8).hex()
assert b == c, (b, c)
print('detrand shim ok', b)
"
/venv/bin/python -m compileall -q simkit checks >/dev/null 2>&1 || true
echo setup done
